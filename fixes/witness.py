#!/usr/bin/env python3
"""Witness of every defect repaired by a `fix:` commit: each function returns True when the
property holds on that input.  Run with PYTHONPATH=/repo/src.  `witness.py D4` -> exit 0 iff ok."""
import sys
W = {}
def w(id_):
    def d(f): W[id_] = f; return f
    return d

def V(s):
    from poetry.core.constraints.version import Version
    return Version.parse(s)
def C(s):
    from poetry.core.constraints.version import parse_constraint
    return parse_constraint(s)

@w("D1")
def _(): return V("1.0RC1") == V("1.0rc1") and not (V("1.0RC1") < V("1.0a1")) and V("1.0.DEV1") == V("1.0.dev1") and V("1.0PREVIEW1").to_string() == "1.0rc1"
@w("D2")
def _(): return V("1.0+01").to_string() == "1.0+1"
@w("D3")
def _(): return V("1.0+0") != V("1.0") and V("1.0") < V("1.0+0") and V("1.0+abc") < V("1.0+0")
@w("D4")
def _(): return not C(">1.0").allows(V("1.0.post1+local"))
@w("D5")
def _(): return not C("~=1.0.0.1").allows(V("1.0.5")) and C("~=1.0.0.1").allows(V("1.0.0.7"))
@w("D6")
def _():
    from poetry.core.constraints.version import EmptyConstraint
    u = C("<1 || >2"); return str(u.difference(EmptyConstraint())) == str(u)
@w("D7")
def _(): return C(">=1,<=3").difference(C(">=2,<3 || >=3.dev0")).allows(V("1.5"))
@w("D8")
def _():
    try: str(C("<0 || >=0.dev0")); str(C(">=0.dev0,<1!0")); return True
    except IndexError: return False
@w("D9")
def _(): return not C(str(C("==1!1.*"))).allows(V("1.5")) and C(str(C("==1!1.*"))).allows(V("1!1.5"))
@w("D22")
def _():
    a = C(">1.0 || ==1.0.post1 || >=2,<3"); b = C(">=2.1,<2.2 || >=5")
    return not a.difference(b).allows(V("2.1.5"))

@w("D31")
def _():
    from poetry.core.version.exceptions import InvalidVersionError
    for s in ["1.0.po\u017ft1", "1+\u017f0", "1.0+\u0131"]:
        try: V(s); return False
        except InvalidVersionError: pass
    return V("1+\u212a").to_string() == "1+k" and V("1.0\u00a0").to_string() == "1.0"

@w("D32")
def _():
    c = C("!=1.2.dev1+1 , ==1.2.dev1+1")
    return c.is_empty() and not C(">1.2.dev1+1").allows_any(V("1.2.dev1+1")) and str(C(">=1.2.3+local").intersect(V("1.2.3"))) == ">=1.2.3+local,<1.2.4"

def GC(s):
    from poetry.core.constraints.generic import parse_constraint
    return parse_constraint(s)
@w("D24")
def _():
    from poetry.core.constraints.generic import Constraint
    a, b = Constraint("linux", "!="), Constraint("win32", "not in")
    # values without 'win32' inside include 'linux' itself, which != linux rejects
    return not a.allows_all(b) and Constraint("xwin32y", "!=").allows_all(b)
@w("D12a")
def _():
    u = GC("!=a,!=b").union(GC("!=c,!=d"))
    return u.is_any()
@w("D25")
def _():
    from poetry.core.constraints.generic import parse_extra_constraint
    for f in (GC, parse_extra_constraint):
        try: f("!==x")
        except KeyError: return False
        except ValueError: pass
    return True

def PM(s):
    from poetry.core.version.markers import parse_marker
    return parse_marker(s)
@w("D10")
def _():
    m = PM('"3.8" <= python_version'); e = PM("'foo' == extra")
    return m.validate({"python_version": "3.9"}) and not m.validate({"python_version": "3.7"}) and e.validate({"extra": {"foo"}})
@w("D15")
def _():
    from poetry.core.packages.utils.utils import create_nested_marker
    return bool(str(PM(create_nested_marker("python_version", C("3.*,<=3.8")))))
@w("D23")
def _():
    a = PM('"arm64" not in platform_machine'); b = PM('platform_machine not in "arm64"')
    return a != b and b.validate({"platform_machine": "arm64e"})
@w("D12b")
def _():
    from poetry.core.version.markers import AnyMarker, EmptyMarker
    m = PM('(sys_platform == "a" and os_name == "b") or (python_version >= "3.6" and os_name == "c")')
    n = PM('(sys_platform == "a" or os_name == "b") and (python_version >= "3.6" or os_name == "c")')
    return "<empty>" not in str(m.union(EmptyMarker())) and "()" not in str(n.intersect(AnyMarker())) and str(m.union(EmptyMarker())) == str(m)
@w("D13")
def _():
    from poetry.core.packages.utils.utils import create_nested_marker
    m = PM(create_nested_marker("python_version", C("^3")))
    return m.validate({"python_version": "3.9", "python_full_version": "3.9.1"})

@w("D27")
def _():
    env = {"platform_version": "#1 SMP Debian 5.10.46-4 (2021-08-03)", "sys_platform": "linux"}
    a = PM('platform_version != "1" and sys_platform == "linux"').validate(env)
    b = PM('"SMP" in platform_version').validate(env)
    c = PM('platform_version == "a"').validate({"platform_version": "a,b"})
    return a and b and not c

@w("D34")
def _():
    a = PM('sys_platform not in "win32, linux, cygwin"'); b = PM("'cygwi' not in sys_platform")
    u = a.union(b); i = PM('sys_platform != "a" and sys_platform != "b"').intersect(PM('"a" not in sys_platform'))
    ok = u.validate({"sys_platform": "linux"}) and i.validate({"sys_platform": "c"}) and not i.validate({"sys_platform": "xay"})
    j = PM('"a" not in sys_platform and sys_platform != "b"').intersect(PM('sys_platform == "ab"'))
    return ok and not j.validate({"sys_platform": "ab"})

@w("D35")
def _():
    m = PM("'a' not in sys_platform or 'b' not in sys_platform")
    return not m.is_any() and not m.validate({"sys_platform": "ab"}) and m.validate({"sys_platform": "a"})

@w("D36")
def _():
    import tempfile, subprocess, pathlib, shutil
    from poetry.core.vcs.git import Git
    d = pathlib.Path(tempfile.mkdtemp(prefix="pcv-w-"))
    try:
        subprocess.run(["git", "init", "-q", str(d)], check=True)
        (d / ".gitignore").write_text("*.dat\n"); (d / "\u00efgnored.dat").write_text("x"); (d / "plain.dat").write_text("y")
        got = Git(d).get_ignored_files(d)
        return "\u00efgnored.dat" in got and "plain.dat" in got
    finally:
        shutil.rmtree(d, ignore_errors=True)
@w("D19")
def _():
    import tempfile, subprocess, pathlib, shutil, zipfile, os, sys
    d = pathlib.Path(tempfile.mkdtemp(prefix="pcv-w-"))
    try:
        for r in ("src_a", "lib_b", "more_c"):
            (d / r / ("pkg_" + r)).mkdir(parents=True); (d / r / ("pkg_" + r) / "__init__.py").write_text("")
        (d / "pyproject.toml").write_text('[tool.poetry]\nname="w"\nversion="1.0"\ndescription="d"\nauthors=[]\n'
            'packages=[{include="pkg_src_a",from="src_a"},{include="pkg_lib_b",from="lib_b"},{include="pkg_more_c",from="more_c"}]\n'
            '[build-system]\nrequires=["poetry-core"]\nbuild-backend="poetry.core.masonry.api"\n')
        seen = set()
        for seed in ("1", "2", "3", "4", "5", "6"):
            out = d / ("o" + seed); out.mkdir()
            env = dict(os.environ, PYTHONHASHSEED=seed)
            subprocess.run([sys.executable, "-c", f"import os; os.chdir({str(d)!r}); from poetry.core.masonry import api; api.build_editable({str(out)!r})"],
                           check=True, env=env, capture_output=True)
            whl = next(out.glob("*.whl"))
            with zipfile.ZipFile(whl) as z:
                seen.add(z.read("w.pth"))
        return len(seen) == 1
    finally:
        shutil.rmtree(d, ignore_errors=True)

@w("D17")
def _():
    import tempfile, pathlib, shutil, email
    from poetry.core.factory import Factory
    from poetry.core.masonry.builders.builder import Builder
    d = pathlib.Path(tempfile.mkdtemp(prefix="pcv-w-"))
    try:
        (d / "w").mkdir(); (d / "w" / "__init__.py").write_text("")
        (d / "pyproject.toml").write_text('[project]\nname="w"\nversion="1.0"\ndescription="x"\nkeywords=["a\\nRequires-Dist: evil"]\n'
                                          '[build-system]\nrequires=["poetry-core"]\nbuild-backend="poetry.core.masonry.api"\n')
        try:
            text = Builder(Factory().create_poetry(d)).get_metadata_content()
        except ValueError:
            return True
        return "Requires-Dist" not in email.message_from_string(text)
    finally:
        shutil.rmtree(d, ignore_errors=True)

@w("D39")
def _():
    for s in ["'a' IN", "'a' Not In", "'a' not\tin"]:
        try: GC(s)
        except KeyError: return False
        except ValueError: pass
    return str(GC("'a' IN")) == "'a' in"

@w("D21")
def _():
    from poetry.core.factory import Factory
    for data in ({"project": "x"}, {"tool": 3}, {"tool": {"poetry": []}}, {"project": [], "tool": {"poetry": {}}}):
        try:
            r = Factory.validate(data)
        except (AttributeError, TypeError):
            return False
        if not r["errors"]: return False
    return True

@w("D40")
def _():
    from poetry.core.packages.dependency import Dependency
    d = Dependency.create_from_pep_508("Foo_Bar !=1.0.0.1,==1.*")
    t = d.to_pep_508()
    d2 = Dependency.create_from_pep_508(t)
    return "||" not in t and d2.constraint.allows(V("1.5")) and not d2.constraint.allows(V("1.0.0.1"))

@w("D41")
def _():
    # a value that begins with "in" must not be re-read as the operator "in" when a clause is rebuilt from its constraint
    from poetry.core.version.markers import parse_marker
    a = parse_marker('extra == "internal" and extra == "b"').validate({"extra": {"internal", "b"}})
    b = parse_marker('extra == "internal" or extra == "b"').validate({"extra": {"internal"}})
    m = parse_marker('(sys_platform == "interix" or sys_platform == "linux") and sys_platform != "linux"')
    return a is True and b is True and m.validate({"sys_platform": "interix"}) is True and str(m) == 'sys_platform == "interix"'

@w("D42")
def _():
    # readme = {text = "..."}: the description is that text, wherever the project lives
    import tempfile, pathlib, shutil
    from poetry.core.factory import Factory
    from poetry.core.masonry.builders.builder import Builder
    d = pathlib.Path(tempfile.mkdtemp(prefix="pcv-d42-"))
    try:
        (d / "pkg").mkdir(); (d / "pkg" / "__init__.py").write_text("")
        (d / "pyproject.toml").write_text('[project]\nname = "demo"\nversion = "1.0"\ndescription = "d"\n'
            'readme = {text = "Hello *world*", content-type = "text/markdown"}\n[tool.poetry]\npackages = [{include = "pkg"}]\n')
        text = Builder(Factory().create_poetry(d)).get_metadata_content()
        return text.endswith("\n\nHello *world*\n") or text.endswith("\n\nHello *world*")
    finally:
        shutil.rmtree(d, ignore_errors=True)

@w("D43")
def _():
    # a PEP 508 name may end like a file name: it is still a registry requirement
    from poetry.core.packages.dependency import Dependency
    ok = True
    for n in ["foo.zip", "pkg.tar.gz", "a.whl", "x.tar", "foo-1.0-py3-none-any.whl"]:
        for c in [">=1.0", "*"]:
            d = Dependency(n, c)
            e = Dependency.create_from_pep_508(d.to_pep_508())
            ok = ok and type(e) is Dependency and e.name == d.name and str(e.constraint) == str(d.constraint)
    return ok

@w("D44")
def _():
    from poetry.core.constraints.version import parse_constraint, Version
    ok = True
    for s, inside, outside in [("==1.1b0.dev0.*", "1.1b0.dev0", "1.1b0.dev1"), ("==2.0.post1.dev0.*", "2.0.post1.dev0", "2.0.post1"), ("==2.0a1.dev3.*", "2.0a1.dev3", "2.0a1")]:
        c = parse_constraint(s)
        ok = ok and c.allows(Version.parse(inside)) and not c.allows(Version.parse(outside))
        parse_constraint(s + ",<9")          # AssertionError before the repair
        str(parse_constraint("!=" + s[2:]))
    # pinned behaviour is unchanged
    ok = ok and str(parse_constraint("2.0dev0.*")) == ">=2.0.dev0,<2.0.dev1" and str(parse_constraint("==2.0a1.*")) == ">=2.0a1.dev0,<2.0a2.dev0"
    return ok

@w("D45")
def _():
    from poetry.core.version.markers import parse_marker
    ok = True
    envs = [{"platform_release": r} for r in ["5.10.0-arch1-1", "5.10", "6.1.0", "4.19.0-arm", "10", "5.4.0-aws"]]
    def ref(text, env):
        import packaging.markers
    for text, truth in [('platform_release >= "5.10" and "arm" in platform_release', lambda r: None),
                        ('platform_release >= "5.10" or "arm" in platform_release', None),
                        ('platform_release != "5.10" and "arm" not in platform_release', None),
                        ('platform_release not in "5.10 5.4" and \'arch\' not in platform_release', None),
                        ('"5.1" in platform_release or platform_release == "6.1.0" and \'arm\' not in platform_release', None)]:
        m = parse_marker(text)
        # each clause keeps its own meaning: the whole equals the and/or of the clauses parsed alone
        import re
        parts = re.split(r" (and|or) ", text)
        vals = lambda env: [parse_marker(p).validate(env) if p not in ("and", "or") else p for p in parts]
        for env in envs:
            v = vals(env)
            # 'and' binds tighter than 'or'
            groups, cur = [], True
            acc = []
            i = 0
            term = v[0]
            res_or = []
            cur = v[0]
            for j in range(1, len(v), 2):
                if v[j] == "and": cur = cur and v[j + 1]
                else: res_or.append(cur); cur = v[j + 1]
            res_or.append(cur)
            ok = ok and (m.validate(env) == any(res_or))
        str(m); parse_marker(str(m))
    return ok

@w("D48")
def _():
    from poetry.core.version.markers import parse_marker
    from poetry.core.constraints.version import parse_constraint, Version
    from poetry.core.packages.utils.utils import get_python_constraint_from_marker
    ok = True
    grid = [f"3.{mi}.{pa}" for mi in range(6, 12) for pa in (0, 1, 5)]
    env = lambda py: {"python_full_version": py, "python_version": ".".join(py.split(".")[:2])}
    for text in ['python_version in "3.7, 3.8" and python_full_version > "3.8.0"', 'python_full_version >= "3.8.1" and python_version in "3.7 3.8 3.9"',
                 'python_version in "3.7, 3.8" and python_version in "3.8, 3.9"', 'python_version not in "3.7, 3.8" and python_version >= "3.6"']:
        m = parse_marker(text); c = get_python_constraint_from_marker(m)
        ok = ok and all(c.allows(Version.parse(py)) == m.validate(env(py)) for py in grid)
    m = parse_marker('python_version == "3.9" or (python_version in "3.7, 3.8" and python_full_version > "3.8.0")')
    pc = parse_constraint("~3.7 || ~3.9"); r = m.reduce_by_python_constraint(pc)
    ok = ok and all(r.validate(env(py)) == m.validate(env(py)) for py in grid if pc.allows(Version.parse(py)))
    return ok

if __name__ == "__main__":
    ids = sys.argv[1:] or list(W)
    bad = 0
    for i in ids:
        try: ok = W[i]()
        except Exception as e: ok = False; print(i, "raised", type(e).__name__, e)
        print(i, "holds" if ok else "FAILS"); bad += (not ok)
    sys.exit(1 if bad else 0)
