#!/usr/bin/env python3
"""Apply one named repair to /repo as its own unguarded `fix:` commit and run the
unedited baseline suite.  Used once per defect during the build phase; kept for the record.
usage: apply_fix.py <id>   (ids in FIXES below)"""
import subprocess, sys, re, pathlib
R = pathlib.Path("/repo")
S = R / "src/poetry/core"

def sub(path, old, new, count=1):
    p = S / path
    t = p.read_text()
    assert t.count(old) >= 1, (path, old)
    if count == 1:
        assert t.count(old) == 1, (path, old, t.count(old))
    p.write_text(t.replace(old, new))

FIXES = {}
def fix(id_, msg):
    def deco(f):
        FIXES[id_] = (msg, f); return f
    return deco

@fix("D1", "fix: normalise release phase labels case-insensitively (1.0RC1 == 1.0rc1)")
def _():
    sub("version/pep440/segments.py",
        '''        object.__setattr__(
            self, "phase", RELEASE_PHASE_NORMALIZATIONS.get(self.phase, self.phase)
        )''',
        '''        phase = self.phase.lower()
        object.__setattr__(
            self, "phase", RELEASE_PHASE_NORMALIZATIONS.get(phase, phase)
        )''')

@fix("D2", "fix: numeric local version segments are integers (1.0+01 normalises to 1.0+1)")
def _():
    sub("version/pep440/parser.py",
        "            part.lower()\n",
        "            int(part) if part.isdigit() else part.lower()\n")

@fix("D3", "fix: infinity sentinels of the version compare key never equal an integer (1.0+0 != 1.0)")
def _():
    sub("version/pep440/version.py",
        '''class AlwaysSmaller:
    def __lt__(self, other: object) -> bool:
        return True
''',
        '''class AlwaysSmaller:
    def __lt__(self, other: object) -> bool:
        return True

    def __eq__(self, other: object) -> bool:
        return isinstance(other, AlwaysSmaller)

    def __hash__(self) -> int:
        return hash(AlwaysSmaller)
''')
    sub("version/pep440/version.py",
        '''class AlwaysGreater:
    def __gt__(self, other: object) -> bool:
        return True
''',
        '''class AlwaysGreater:
    def __gt__(self, other: object) -> bool:
        return True

    def __eq__(self, other: object) -> bool:
        return isinstance(other, AlwaysGreater)

    def __hash__(self) -> int:
        return hash(AlwaysGreater)
''')

@fix("D4", "fix: '>V' must not admit a local build of a post-release of V")
def _():
    sub("constraints/version/version_range.py",
        "                _other = other.without_local()\n",
        "                _other = _other.without_local()\n")

@fix("D5", "fix: '~=' with four or more release components bumps the last but one segment")
def _():
    sub("constraints/version/parser.py",
        '''        if version.release.precision == 2:
            high = version.stable.next_major()
        else:
            high = version.stable.next_minor()
''',
        '''        if version.release.precision == 2:
            high = version.stable.next_major()
        elif version.release.precision <= 3:
            high = version.stable.next_minor()
        else:
            # PEP 440: "~=V.N" is ">=V.N, ==V.*", i.e. bump the last but one segment
            parts = list(version.parts[:-1])
            parts[-1] += 1
            high = Version.from_parts(*parts[:3], tuple(parts[3:]), epoch=version.epoch)
''')

@fix("D6", "fix: difference of a version union and the empty constraint is the union itself")
def _():
    sub("constraints/version/version_union.py",
        '''    def difference(self, other: VersionConstraint) -> VersionConstraint:
        our_ranges = iter(self._ranges)''',
        '''    def difference(self, other: VersionConstraint) -> VersionConstraint:
        if other.is_empty():
            return self

        our_ranges = iter(self._ranges)''')

@fix("D7", "fix: range minus union keeps the pieces already split off when the rest is swallowed")
def _():
    sub("constraints/version/version_range.py",
        "            current: VersionRangeConstraint = self\n",
        "            current: VersionRangeConstraint | None = self\n")
    sub("constraints/version/version_range.py",
        '''                if difference.is_empty():
                    return EmptyConstraint()
                elif isinstance(difference, VersionUnion):''',
        '''                if difference.is_empty():
                    current = None
                    break
                elif isinstance(difference, VersionUnion):''')
    sub("constraints/version/version_range.py",
        '''            if not ranges:
                return current

            return VersionUnion.of(*([*ranges, current]))
''',
        '''            if current is not None:
                ranges.append(current)

            return VersionUnion.of(*ranges)
''')

@fix("D8", "fix: printing a range whose upper bound is all zeros no longer raises IndexError")
def _():
    sub("constraints/version/version_constraint.py",
        '''    # fill up first with zeros
''',
        '''    if not parts_second:
        return False

    # fill up first with zeros
''')

@fix("D9", "fix: wildcard text of a range keeps the epoch (==1!1.* no longer prints as ==1.*)")
def _():
    sub("constraints/version/version_constraint.py",
        '''    if (
        min_.is_local()
        or max_.is_local()''',
        '''    if (
        min_.epoch != max_.epoch
        or min_.is_local()
        or max_.is_local()''')
    sub("constraints/version/version_constraint.py",
        '''        base_version = ".".join(str(part) for part in parts)
''',
        '''        base_version = ".".join(str(part) for part in parts)
        if second.epoch:
            base_version = f"{second.epoch}!{base_version}"
''')

@fix("D22", "fix: VersionUnion.of merges a range with any earlier member it touches, not only the last")
def _():
    sub("constraints/version/version_union.py",
        '''            # Merge this constraint with the previous one, but only if they touch.
            if not merged or (
                not merged[-1].allows_any(constraint)
                and not merged[-1].is_adjacent_to(constraint)
            ):
                merged.append(constraint)
            else:
                new_constraint = merged[-1].union(constraint)
                assert isinstance(new_constraint, VersionRangeConstraint)
                merged[-1] = new_constraint
''',
        '''            # Merge this constraint with a previous one, but only if they touch.
            # Usually that is the last one, but an exclusive lower bound does not
            # allow post-releases and local versions of itself (PEP 440), so such
            # versions may sit between a range and the constraints it overlaps.
            for i in range(len(merged) - 1, -1, -1):
                if merged[i].allows_any(constraint) or merged[i].is_adjacent_to(
                    constraint
                ):
                    new_constraint = merged[i].union(constraint)
                    assert isinstance(new_constraint, VersionRangeConstraint)
                    merged[i] = new_constraint
                    break
            else:
                merged.append(constraint)
''')

@fix("D31", "fix: reject versions whose letters only match the PEP 440 pattern through Unicode case folding (1.0.po\u017ft1)")
def _():
    sub("version/pep440/parser.py",
        """        match = cls._regex.search(value) if value else None
        if not match:""",
        """        match = cls._regex.search(value) if value else None
        if match and not match.group(0).strip().lower().isascii():
            # re.IGNORECASE also matches a few non-ASCII letters (e.g. U+017F for "s")
            # which PEP 440 does not allow
            match = None
        if not match:""")

@fix("D32", "fix: the '>=V+local meets V' special case must not fire for a version that carries the local label itself")
def _():
    sub("constraints/version/version_range.py",
        """            return (
                self.min is not None and self.min.is_local() and other.allows(self.min)
            )""",
        """            return (
                self.min is not None
                and self.min.is_local()
                and not other.is_local()
                and other.allows(self.min)
            )""")
    sub("constraints/version/version_range.py",
        """            if self.min is not None and self.min.is_local() and other.allows(self.min):""",
        """            if (
                self.min is not None
                and self.min.is_local()
                and not other.is_local()
                and other.allows(self.min)
            ):""")

@fix("D24", "fix: '!= X' allows all of \"'S' not in\" exactly when S is a substring of X")
def _():
    sub("constraints/generic/constraint.py",
        """                if self._operator == "!=":
                    return self.value not in other.value""",
        """                if self._operator == "!=":
                    # every value without the substring differs from our value
                    # if and only if our value contains the substring
                    return other.value in self.value""")

@fix("D12a", "fix: the union of two multi-constraints without a common clause is the universal constraint")
def _():
    sub("constraints/generic/multi_constraint.py",
        """            common = [c for c in self.constraints if c in theirs]
            return self.__class__(*common)""",
        """            common = [c for c in self.constraints if c in theirs]
            if not common:
                return AnyConstraint()
            return self.__class__(*common)""")

@fix("D25", "fix: string constraint parsers reject the operator '!==' instead of raising KeyError")
def _():
    sub("constraints/generic/parser.py",
        'BASIC_CONSTRAINT = re.compile(r"^(!?==?)?\\s*([^\\s]+?)\\s*$")',
        'BASIC_CONSTRAINT = re.compile(r"^(!=|==?)?\\s*([^\\s]+?)\\s*$")')

@fix("D10", "fix: markers with reversed operands accept every comparison operator ('\"3.8\" <= python_version')")
def _():
    sub("version/markers.py",
        """            if swapped_name_value:
                name, value = value, name

            value = value[1:-1]
""",
        """            if swapped_name_value:
                name, value = value, name
                if op not in ("in", "not in"):
                    # '"3.8" <= python_version' is 'python_version >= "3.8"'
                    op = {"<": ">", "<=": ">=", ">": "<", ">=": "<="}.get(op, op)
                    swapped_name_value = False
                    stringed_value = False

            value = value[1:-1]
""")

@fix("D15", "fix: pad python_full_version literals only when they are plain release numbers (3.* no longer becomes 3.dev0.0)")
def _():
    sub("version/markers.py",
        """                if precision < 3:
                    suffix = ".0" * (3 - precision)""",
        """                if precision < 3 and self._value.replace(".", "").isdigit():
                    suffix = ".0" * (3 - precision)""")

@fix("D23", "fix: equality and hash of single markers distinguish '\"x\" in name' from 'name in \"x\"'")
def _():
    sub("version/markers.py",
        """        return self._name, self._operator, self._value

    def reduce_by_python_constraint(""",
        """        return self._name, self._operator, self._value, self._swapped_name_value

    def reduce_by_python_constraint(""")

@fix("D12b", "fix: intersection()/union() of markers drop universal resp. empty operands instead of keeping them in the result")
def _():
    sub("version/markers.py",
        """def intersection(*markers: BaseMarker) -> BaseMarker:
    # Sometimes normalization""",
        """def intersection(*markers: BaseMarker) -> BaseMarker:
    if any(m.is_empty() for m in markers):
        return EmptyMarker()
    markers = tuple(m for m in markers if not m.is_any())
    if not markers:
        return AnyMarker()

    # Sometimes normalization""")
    sub("version/markers.py",
        """def union(*markers: BaseMarker) -> BaseMarker:
    # Sometimes normalization""",
        """def union(*markers: BaseMarker) -> BaseMarker:
    if any(m.is_any() for m in markers):
        return AnyMarker()
    markers = tuple(m for m in markers if not m.is_empty())
    if not markers:
        return EmptyMarker()

    # Sometimes normalization""")

@fix("D13", "fix: 'python_version >= \"3\" and < \"4\"' is not collapsed to python_version == \"3\" (one-component lower bound)")
def _():
    sub("version/markers.py",
        """            if result_constraint.min:
                # Convert""",
        """            if result_constraint.min and result_constraint.min.precision >= 2:
                # Convert""")

@fix("D27", "fix: environment values of string markers are taken literally, not parsed as constraints (platform_version with blanks)")
def _():
    sub("version/markers.py",
        """        else:
            self._parser = parse_generic_constraint

    @property
    def name(self) -> str:""",
        """        else:
            # the value of the environment is a plain string, not a constraint expression
            self._parser = Constraint

    @property
    def name(self) -> str:""")

@fix("D34", "fix: multi-constraints do not apply their value-based shortcuts to substring ('in' / 'not in') clauses")
def _():
    sub("constraints/generic/multi_constraint.py",
        """        if other in self._constraints:
            return self

        if other.value in (c.value for c in self._constraints):
            # same value but different operator, e.g. '== "linux"' and '!= "linux"'
            return EmptyConstraint()

        if other.operator == "==" and "==" not in self.OPERATORS:
            return other

        return self.__class__(*self._constraints, other)""",
        """        if other in self._constraints:
            return self

        if "==" not in self.OPERATORS:
            # single-valued: '== x' either satisfies all our clauses or none
            if other.operator == "==":
                return other if self.allows(other) else EmptyConstraint()
            if other.invert() in self._constraints:
                # e.g. "'x' in" and "'x' not in"
                return EmptyConstraint()
            return self.__class__(*self._constraints, other)

        if other.value in (c.value for c in self._constraints):
            # same value but different operator, e.g. '== "linux"' and '!= "linux"'
            return EmptyConstraint()

        return self.__class__(*self._constraints, other)""")
    sub("constraints/generic/multi_constraint.py",
        """    def union(self, other: BaseConstraint) -> BaseConstraint:
        if isinstance(other, MultiConstraint):
            theirs = set(other.constraints)""",
        """    def union(self, other: BaseConstraint) -> BaseConstraint:
        if isinstance(other, (MultiConstraint, Constraint)) and any(
            c.operator in {"in", "not in"}
            for c in (
                *self._constraints,
                *(other.constraints if isinstance(other, MultiConstraint) else [other]),
            )
        ):
            # substring clauses do not simplify against values
            if other in self._constraints:
                return other
            from poetry.core.constraints.generic import UnionConstraint

            return UnionConstraint(self, other)

        if isinstance(other, MultiConstraint):
            theirs = set(other.constraints)""")

@fix("D35", "fix: the union of two different \"not in\" substring constraints is not the universal constraint")
def _():
    sub("constraints/generic/constraint.py",
        """                (ops in ({"!="}, {"not in"}))""",
        """                (ops == {"!="})""")

@fix("D19", "fix: the .pth file of an editable wheel lists its paths in sorted order (was hash-seed dependent)")
def _():
    sub("masonry/builders/wheel.py",
        """        for path in paths:
            content += path + os.linesep""",
        """        for path in sorted(paths):
            content += path + os.linesep""")

@fix("D36", "fix: ask git for ignored files with -z so that names git would quote (non-ASCII) are still recognised")
def _():
    sub("vcs/git.py",
        """        args += ["ls-files", "--others", "-i", "--exclude-standard"]
        output = self.run(*args)

        return output.strip().split("\\n")""",
        """        args += ["ls-files", "--others", "-i", "--exclude-standard", "-z"]
        output = self.run(*args)

        return output.strip("\\0").split("\\0")""")

@fix("D17", "fix: refuse to render core metadata when a single-line field contains a line break (header injection)")
def _():
    sub("masonry/builders/builder.py",
        """    def get_metadata_content(self) -> str:
        content = METADATA_BASE.format(""",
        """    def get_metadata_content(self) -> str:
        single_line_values = [
            self._meta.name,
            self._meta.version,
            self._meta.summary,
            self._meta.keywords,
            self._meta.author,
            self._meta.author_email,
            self._meta.maintainer,
            self._meta.maintainer_email,
            self._meta.requires_python,
            *self._meta.classifiers,
            *self._meta.provides_extra,
            *self._meta.requires_dist,
            *self._meta.project_urls,
            self._meta.description_content_type,
        ]
        for value in single_line_values:
            if value and ("\\n" in str(value) or "\\r" in str(value)):
                raise ValueError(
                    "Invalid metadata: a field value must not contain a line break:"
                    f" {value!r}"
                )

        content = METADATA_BASE.format(""")

@fix("D39", "fix: string constraints accept 'IN' / 'Not In' in any case and with any blank (was KeyError)")
def _():
    sub("constraints/generic/parser.py",
        """        op = m.group("op")
        value = m.group("value").strip()""",
        """        # the pattern is case-insensitive and allows any blank between "not" and "in"
        op = " ".join(m.group("op").lower().split())
        value = m.group("value").strip()""")

@fix("D21", "fix: Factory.validate reports non-table 'project' / 'tool' / 'tool.poetry' as errors instead of raising AttributeError")
def _():
    sub("factory.py",
        """        tool_poetry = toml_data.setdefault("tool", {}).setdefault("poetry", {})
        tool_poetry_validation_errors = [
            e.replace("data.", "tool.poetry.")
            for e in validate_object(tool_poetry, "poetry-schema")
        ]
        result["errors"] += tool_poetry_validation_errors
""",
        """        tool = toml_data.setdefault("tool", {})
        if not isinstance(tool, dict):
            result["errors"].append("tool must be object")
            return result
        tool_poetry = tool.setdefault("poetry", {})
        tool_poetry_validation_errors = [
            e.replace("data.", "tool.poetry.").replace("data ", "tool.poetry ")
            for e in validate_object(tool_poetry, "poetry-schema")
        ]
        result["errors"] += tool_poetry_validation_errors
        if result["errors"] and not (
            isinstance(tool_poetry, dict) and isinstance(project or {}, dict)
        ):
            # the checks below require tables
            return result
""")

@fix("D40", "fix: a dependency created from PEP 508 text keeps the specifier text, so that a split range is written back with ',' not '||'")
def _():
    sub("packages/dependency.py",
        """            constraint = req.constraint if req.pretty_constraint else "*"
            dep = Dependency(name, constraint, extras=req.extras)""",
        """            constraint = req.pretty_constraint if req.pretty_constraint else "*"
            dep = Dependency(name, constraint, extras=req.extras)""")

@fix("D41", "fix: a marker clause rebuilt from a constraint object keeps its '==' operator, so that a value beginning with 'in' (extra == \"internal\") is not read as the operator 'in'")
def _():
    sub("version/markers.py",
        """        original_constraint_string = constraint_string = str(constraint)
        self._swapped_name_value: bool = swapped_name_value
""",
        """        original_constraint_string = constraint_string = str(constraint)
        if isinstance(constraint, Constraint) and constraint.operator == "==":
            # str() of an equality omits the operator; written out, a value
            # such as "internal" cannot be mistaken for the operator "in"
            original_constraint_string = constraint_string = f"=={constraint.value}"
        self._swapped_name_value: bool = swapped_name_value
""")

@fix("D42", "fix: an inline [project] readme ({text = ...}) is the readme text itself, not a path under the project root")
def _():
    sub("factory.py",
        """                package.readme_content = root / readme["text"]""",
        """                package.readme_content = readme["text"]""")

@fix("D43", "fix: a requirement whose project name merely ends like an archive (foo.zip, pkg.tar.gz) is a registry dependency, not a local file (was AttributeError)")
def _():
    sub("packages/dependency.py",
        """            elif is_archive_file(p):
                link = Link(path_to_url(p))""",
        """            elif is_archive_file(p) and (os.path.sep in name or name.startswith(".")):
                link = Link(path_to_url(p))""")

@fix("D44", "fix: a wildcard after the dev segment of a pre- or post-release (==1.1b0.dev0.*) spans that dev release, not an empty improper range (AssertionError in a comma set)")
def _():
    sub("constraints/version/parser.py",
        """    if version.is_postrelease():
        _next = version.next_postrelease()
    elif version.is_stable():
        _next = version.next_stable()
    elif version.is_prerelease():
        _next = version.next_prerelease()
    elif version.is_devrelease():
        _next = version.next_devrelease()
    else:""",
        """    if version.is_devrelease():
        _next = version.next_devrelease()
    elif version.is_postrelease():
        _next = version.next_postrelease()
    elif version.is_stable():
        _next = version.next_stable()
    elif version.is_prerelease():
        _next = version.next_prerelease()
    else:""")

@fix("D45", "fix: clauses on platform_release of different kinds (a version comparison and a substring / non-version test) are kept side by side instead of being merged (was AssertionError / AttributeError / ValueError)")
def _():
    sub("version/markers.py",
        """    if marker1.name != marker2.name:
        return None

    if merge_class == MultiMarker:
        merge_method = marker1.constraint.intersect""",
        """    if marker1.name != marker2.name:
        return None

    if isinstance(marker1.constraint, VersionConstraint) != isinstance(
        marker2.constraint, VersionConstraint
    ):
        # platform_release: a version constraint and a plain string constraint
        # (a value that is not a version, a substring test) cannot be merged
        return None

    if merge_class == MultiMarker:
        merge_method = marker1.constraint.intersect""")

@fix("D48", "fix: distribute a python_version 'in' list over the other clauses of its conjunction")
def _():
    # recorded as the patch itself (git apply): normalize_python_version_markers keeps one list of alternatives per clause and emits
    # the product, instead of joining the alternatives of an 'in' clause with '||' inside the space-separated conjunction
    import tempfile
    with tempfile.NamedTemporaryFile("w", suffix=".diff", delete=False) as f:
        f.write(D48_DIFF)
    subprocess.check_call(["git", "-C", str(R), "apply", f.name])
D48_DIFF = r"""diff --git a/src/poetry/core/packages/utils/utils.py b/src/poetry/core/packages/utils/utils.py
index 1440d57..083931b 100644
--- a/src/poetry/core/packages/utils/utils.py
+++ b/src/poetry/core/packages/utils/utils.py
@@ -1,6 +1,7 @@
 from __future__ import annotations
 
 import functools
+import itertools
 import re
 import sys
 
@@ -332,7 +333,9 @@ def normalize_python_version_markers(  # NOSONAR
 ) -> str:
     ors = []
     for or_ in disjunction:
-        ands = []
+        # one list of alternatives per clause: "in" contributes several,
+        # which have to be distributed over the other clauses of the conjunction
+        ands: list[list[str]] = []
         for op, version in or_:
             # Expand python version
             if op == "==" and "*" not in version and version.count(".") < 2:
@@ -386,13 +389,15 @@ def normalize_python_version_markers(  # NOSONAR
                     versions.append(op_ + ".".join(split))
 
                 if versions:
-                    glue = " || " if op == "in" else ", "
-                    ands.append(glue.join(versions))
+                    if op == "in":
+                        ands.append(versions)
+                    else:
+                        ands.append([", ".join(versions)])
 
                 continue
 
-            ands.append(f"{op}{version}")
+            ands.append([f"{op}{version}"])
 
-        ors.append(" ".join(ands))
+        ors.extend(" ".join(combo) for combo in itertools.product(*ands))
 
     return " || ".join(ors)
"""

def main():
    id_ = sys.argv[1]
    msg, f = FIXES[id_]
    assert subprocess.run(["git","-C",str(R),"status","--porcelain"],capture_output=True,text=True).stdout.strip()=="", "repo dirty"
    f()
    subprocess.check_call(["git","-C",str(R),"commit","-qam",msg])
    r = subprocess.run("cd /repo && /venv/bin/python -m pytest -q -p no:cacheprovider --timeout=900 --continue-on-collection-errors -x 2>&1 | tail -3",
                       shell=True,capture_output=True,text=True)
    print(id_, msg); print(r.stdout)
if __name__=="__main__": main()
